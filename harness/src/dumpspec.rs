//! Shared by the C03 and C13 harness binaries (included with #[path]): a textual dump
//! specification, the synthesizer that turns it into minidump bytes (minidump-synth plus raw
//! CPU contexts), and a byte-level symbol supplier.
//!
//! A spec is a list of blank-separated `key=value` tokens (numbers decimal or 0x-hex):
//!   cpu=x86|amd64|arm|arm64|arm64old|mips|mips64|ppc|ppc64|sparc|unknown   os=win|linux|mac|android|ios|solaris|ps3|nacl|<n>
//!   T=<tid>:<stack base>:<bytes>:<regs>        thread; bytes = hex | z<n> (n zero bytes) | -
//!                                              regs = name=val,... | -   (context flags say "all valid")
//!   X=<tid>:<code>:<flags>:<addr>:<nparams>:<info0>:<info1>:<regs|->    exception (+ its own context)
//!   M=<base>:<size>:<name hex>:<symbol index|->[:<debug file hex>:<id>]   module; symbol text index into the S list;
//!                                              with the two optional fields the module gets a PDB70 CodeView record
//!                                              (debug file name, GUID derived from <id>, age 1)
//!   U=<base>:<size>:<name hex>                 unloaded module
//!   S=<hex>                                    symbol file bytes (may repeat)
//!   I=<base>:<size>:<protection>               memory info entry
//!   R=<addr>:<bytes>                           extra memory region
//!   mem64=1                                    every memory region (thread stacks and R=) goes into a Memory64List
//!                                              stream instead of the MemoryList stream (full-dump layout)
//!   N=<tid>:<name hex>                         thread name
//!   B=<dump thread id>:<requesting thread id>  breakpad info stream
//!   maps= limits= status= lsb= cpuinfo= environ=   <hex> Linux text streams
//!   file=<name under /repo/testdata>           start from a sample dump instead of synthesizing
//!   mut=<off>:<val>,...   trunc=<n>            byte-level corruption of the finished dump
//!   smut=<idx>:<off>:<val>,...                 byte-level corruption of symbol text idx
//!   opt=0|1|2|3                                stable_basic | stable_all | unstable_all | all three
use async_trait::async_trait;
use breakpad_symbols::{FileError, FileKind, LocateSymbolsResult, SymbolError, SymbolFile, SymbolSupplier};
use minidump::format as md;
use minidump::{CpuContext, Module as _};
use minidump_synth::*;
use scroll::ctx::SizeWith;
use scroll::{Pread, Pwrite, LE};
use std::collections::HashMap;
use std::path::PathBuf;
use test_assembler::{Endian as TEndian, Section};
use vharness::unhex;

pub fn num(s: &str) -> u64 {
    if let Some(h) = s.strip_prefix("0x") {
        u64::from_str_radix(h, 16).expect("hex number")
    } else {
        s.parse::<u64>().expect("number")
    }
}

pub fn bytes_spec(s: &str) -> Vec<u8> {
    if s == "-" || s.is_empty() {
        vec![]
    } else if let Some(n) = s.strip_prefix('z') {
        vec![0u8; num(n) as usize]
    } else {
        unhex(s)
    }
}

pub fn regs_spec(s: &str) -> Option<Vec<(String, u64)>> {
    if s == "-" {
        return None;
    }
    if s.is_empty() || s == "0" {
        return Some(vec![]);
    }
    Some(
        s.split(',')
            .map(|kv| {
                let (k, v) = kv.split_once('=').expect("reg=val");
                (k.to_string(), num(v))
            })
            .collect(),
    )
}

#[derive(Default, Clone)]
pub struct ThreadSpec {
    pub id: u32,
    pub stack_base: u64,
    pub stack: Vec<u8>,
    pub regs: Option<Vec<(String, u64)>>,
}
#[derive(Default, Clone)]
pub struct ExcSpec {
    pub tid: u32,
    pub code: u32,
    pub flags: u32,
    pub addr: u64,
    pub nparams: u32,
    pub info0: u64,
    pub info1: u64,
    pub regs: Option<Vec<(String, u64)>>,
}
#[derive(Default, Clone)]
pub struct ModSpec {
    pub base: u64,
    pub size: u32,
    pub name: String,
    pub sym: Option<usize>,
    pub debug: Option<(String, u32)>,
}

#[derive(Default, Clone)]
pub struct Spec {
    pub cpu: String,
    pub os: String,
    pub threads: Vec<ThreadSpec>,
    pub exc: Option<ExcSpec>,
    pub modules: Vec<ModSpec>,
    pub unloaded: Vec<ModSpec>,
    pub syms: Vec<Vec<u8>>,
    pub meminfo: Vec<(u64, u64, u32)>,
    pub regions: Vec<(u64, Vec<u8>)>,
    pub names: Vec<(u32, String)>,
    pub breakpad: Option<(u32, u32)>,
    pub maps: Option<Vec<u8>>,
    pub limits: Option<Vec<u8>>,
    pub status: Option<Vec<u8>>,
    pub lsb: Option<Vec<u8>>,
    pub cpuinfo: Option<Vec<u8>>,
    pub environ: Option<Vec<u8>>,
    pub file: Option<String>,
    pub muts: Vec<(usize, u8)>,
    pub trunc: Option<usize>,
    pub smuts: Vec<(usize, usize, u8)>,
    pub opt: u32,
    pub extra: HashMap<String, String>,
}

pub fn lossy(b: &[u8]) -> String {
    String::from_utf8_lossy(b).into_owned()
}

pub fn parse_spec<'a>(toks: impl Iterator<Item = &'a str>) -> Spec {
    let mut s = Spec { cpu: "x86".into(), os: "win".into(), ..Default::default() };
    for t in toks {
        let (k, v) = t.split_once('=').unwrap_or((t, ""));
        let f: Vec<&str> = v.split(':').collect();
        match k {
            "cpu" => s.cpu = v.into(),
            "os" => s.os = v.into(),
            "T" => s.threads.push(ThreadSpec {
                id: num(f[0]) as u32,
                stack_base: num(f[1]),
                stack: bytes_spec(f[2]),
                regs: regs_spec(f[3]),
            }),
            "X" => {
                s.exc = Some(ExcSpec {
                    tid: num(f[0]) as u32,
                    code: num(f[1]) as u32,
                    flags: num(f[2]) as u32,
                    addr: num(f[3]),
                    nparams: num(f[4]) as u32,
                    info0: num(f[5]),
                    info1: num(f[6]),
                    regs: regs_spec(f[7]),
                })
            }
            "M" => s.modules.push(ModSpec {
                base: num(f[0]),
                size: num(f[1]) as u32,
                name: lossy(&unhex(f[2])),
                sym: if f[3] == "-" { None } else { Some(num(f[3]) as usize) },
                debug: if f.len() >= 6 { Some((lossy(&unhex(f[4])), num(f[5]) as u32)) } else { None },
            }),
            "U" => s.unloaded.push(ModSpec { base: num(f[0]), size: num(f[1]) as u32, name: lossy(&unhex(f[2])), sym: None, debug: None }),
            "S" => s.syms.push(unhex(v)),
            "I" => s.meminfo.push((num(f[0]), num(f[1]), num(f[2]) as u32)),
            "R" => s.regions.push((num(f[0]), bytes_spec(f[1]))),
            "N" => s.names.push((num(f[0]) as u32, lossy(&unhex(f[1])))),
            "B" => s.breakpad = Some((num(f[0]) as u32, num(f[1]) as u32)),
            "maps" => s.maps = Some(unhex(v)),
            "limits" => s.limits = Some(unhex(v)),
            "status" => s.status = Some(unhex(v)),
            "lsb" => s.lsb = Some(unhex(v)),
            "cpuinfo" => s.cpuinfo = Some(unhex(v)),
            "environ" => s.environ = Some(unhex(v)),
            "file" => s.file = Some(v.into()),
            "mut" => {
                for m in v.split(',').filter(|x| !x.is_empty()) {
                    let (o, b) = m.split_once(':').expect("off:val");
                    s.muts.push((num(o) as usize, num(b) as u8));
                }
            }
            "smut" => {
                for m in v.split(',').filter(|x| !x.is_empty()) {
                    let p: Vec<&str> = m.split(':').collect();
                    s.smuts.push((num(p[0]) as usize, num(p[1]) as usize, num(p[2]) as u8));
                }
            }
            "trunc" => s.trunc = Some(num(v) as usize),
            "opt" => s.opt = num(v) as u32,
            _ => {
                s.extra.insert(k.to_string(), v.to_string());
            }
        }
    }
    s
}

macro_rules! mkctx {
    ($t:ty, $flags:expr, $regs:expr) => {{
        let sz = <$t>::size_with(&LE);
        let zero = vec![0u8; sz];
        let mut c: $t = zero.pread_with(0, LE).unwrap();
        c.context_flags = $flags as _;
        for (n, v) in $regs.iter() {
            let _ = c.set_register(n, *v as _);
        }
        let mut out = vec![0u8; sz];
        out.pwrite_with(c, 0, LE).unwrap();
        out
    }};
}

pub fn arch_id(cpu: &str) -> u16 {
    match cpu {
        "x86" => 0,
        "mips" => 1,
        "ppc" => 3,
        "arm" => 5,
        "amd64" => 9,
        "arm64" => 12,
        "sparc" => 0x8001,
        "ppc64" => 0x8002,
        "arm64old" => 0x8003,
        "mips64" => 0x8004,
        _ => 0xffff,
    }
}

pub fn os_id(os: &str) -> u32 {
    match os {
        "win" => 2,
        "mac" => 0x8101,
        "ios" => 0x8102,
        "linux" => 0x8201,
        "solaris" => 0x8202,
        "android" => 0x8203,
        "ps3" => 0x8204,
        "nacl" => 0x8205,
        x => num(x) as u32,
    }
}

pub fn context_bytes(cpu: &str, regs: &[(String, u64)]) -> Vec<u8> {
    match cpu {
        "x86" => mkctx!(md::CONTEXT_X86, 0x1003fu32, regs),
        "amd64" => mkctx!(md::CONTEXT_AMD64, 0x10001fu32, regs),
        "arm" => mkctx!(md::CONTEXT_ARM, 0x40000007u32, regs),
        "arm64" => mkctx!(md::CONTEXT_ARM64, 0x40001fu32, regs),
        "arm64old" => mkctx!(md::CONTEXT_ARM64_OLD, 0x80000007u64, regs),
        "mips" => mkctx!(md::CONTEXT_MIPS, 0x40007u32, regs),
        "mips64" => mkctx!(md::CONTEXT_MIPS, 0x80007u32, regs),
        "ppc" => mkctx!(md::CONTEXT_PPC, 0x20000007u32, regs),
        "ppc64" => mkctx!(md::CONTEXT_PPC64, 0x01000007u64, regs),
        "sparc" => mkctx!(md::CONTEXT_SPARC, 0x10000007u32, regs),
        _ => vec![0u8; 64],
    }
}

/// Synthesize the dump described by `s` (or load + corrupt the sample named by `file=`).
pub fn build_dump(s: &Spec) -> Vec<u8> {
    let mut bytes = if let Some(f) = &s.file {
        assert!(!f.contains("..") && !f.contains('/'), "file name");
        std::fs::read(format!("/repo/testdata/{}", f)).expect("sample dump")
    } else {
        synth(s)
    };
    if let Some(n) = s.trunc {
        bytes.truncate(n.min(bytes.len()));
    }
    let len = bytes.len();
    if len > 0 {
        for &(o, v) in &s.muts {
            bytes[o % len] = v;
        }
    }
    bytes
}

fn synth(s: &Spec) -> Vec<u8> {
    let e = TEndian::Little;
    let mut dump = SynthMinidump::with_endian(e);
    let system_info = SystemInfo::new(e)
        .set_processor_architecture(arch_id(&s.cpu))
        .set_platform_id(os_id(&s.os));
    dump = dump.add_system_info(system_info);
    let mem64 = s.extra.get("mem64").map(|v| v == "1").unwrap_or(false);
    let add_mem = |d: SynthMinidump, m: Memory| if mem64 { d.add_memory64(m) } else { d.add_memory(m) };
    for t in &s.threads {
        let stack = Memory::with_section(Section::with_endian(e).append_bytes(&t.stack), t.stack_base);
        match &t.regs {
            Some(regs) => {
                let ctx = Section::with_endian(e).append_bytes(&context_bytes(&s.cpu, regs));
                if mem64 {
                    // full-dump layout: the thread's own descriptor is empty (data_size 0), the stack is found by address
                    let cite = Memory::with_section(Section::with_endian(e), t.stack_base);
                    let thread = Thread::new(e, t.id, &cite, &ctx);
                    dump = dump.add_thread(thread).add(ctx).add(cite).add_memory64(stack);
                } else {
                    let thread = Thread::new(e, t.id, &stack, &ctx);
                    dump = dump.add_thread(thread).add(ctx).add_memory(stack);
                }
            }
            None => {
                // a thread whose context location is empty
                let ctx = Section::with_endian(e);
                if mem64 {
                    let cite = Memory::with_section(Section::with_endian(e), t.stack_base);
                    let thread = Thread::new(e, t.id, &cite, &ctx);
                    dump = dump.add_thread(thread).add(ctx).add(cite).add_memory64(stack);
                } else {
                    let thread = Thread::new(e, t.id, &stack, &ctx);
                    dump = dump.add_thread(thread).add(ctx).add_memory(stack);
                }
            }
        }
    }
    if let Some(x) = &s.exc {
        let mut ex = Exception::new(e);
        ex.thread_id = x.tid;
        ex.exception_record.exception_code = x.code;
        ex.exception_record.exception_flags = x.flags;
        ex.exception_record.exception_address = x.addr;
        ex.exception_record.number_parameters = x.nparams;
        ex.exception_record.exception_information[0] = x.info0;
        ex.exception_record.exception_information[1] = x.info1;
        if let Some(regs) = &x.regs {
            let ctx = Section::with_endian(e).append_bytes(&context_bytes(&s.cpu, regs));
            let off = ctx.file_offset();
            let sz = ctx.file_size();
            dump = dump.add(ctx);
            ex.thread_context = (sz.value().unwrap() as u32, off.value().unwrap() as u32);
        }
        dump = dump.add_exception(ex);
    }
    for m in &s.modules {
        let name = DumpString::new(&m.name, e);
        let mut module = Module::new(e, m.base, m.size, &name, 0xb1054d2a, 0x34571371, None);
        if let Some((file, id)) = &m.debug {
            let mut fname = file.clone().into_bytes();
            fname.push(0);
            let cv = Section::with_endian(e)
                .D32(md::CvSignature::Pdb70 as u32)
                .D32(*id)
                .D16(0xf00d)
                .D16(0xbeef)
                .append_bytes(b"\x01\x02\x03\x04\x05\x06\x07\x08")
                .D32(1)
                .append_bytes(&fname);
            module = module.cv_record(&cv);
            dump = dump.add(cv);
        }
        dump = dump.add_module(module).add(name);
    }
    for m in &s.unloaded {
        let name = DumpString::new(&m.name, e);
        let module = UnloadedModule::new(e, m.base, m.size, &name, 0xb1054d2a, 0x34571371);
        dump = dump.add_unloaded_module(module).add(name);
    }
    for &(b, sz, p) in &s.meminfo {
        dump = dump.add_memory_info(MemoryInfo::new(e, b, b, p, sz, 0x1000, p, 0x20000));
    }
    for (a, b) in &s.regions {
        dump = add_mem(dump, Memory::with_section(Section::with_endian(e).append_bytes(b), *a));
    }
    for (tid, n) in &s.names {
        let name = DumpString::new(n, e);
        dump = dump.add_thread_name(ThreadName::new(e, *tid, Some(&name))).add(name);
    }
    if let Some((d, r)) = s.breakpad {
        dump = dump.add_stream(SimpleStream {
            stream_type: md::MINIDUMP_STREAM_TYPE::BreakpadInfoStream as u32,
            section: Section::with_endian(e).D32(3).D32(d).D32(r),
        });
    }
    if let Some(b) = &s.maps {
        dump = dump.set_linux_maps(b);
    }
    if let Some(b) = &s.limits {
        dump = dump.set_linux_proc_limits(b);
    }
    if let Some(b) = &s.status {
        dump = dump.set_linux_proc_status(b);
    }
    if let Some(b) = &s.lsb {
        dump = dump.set_linux_lsb_release(b);
    }
    if let Some(b) = &s.cpuinfo {
        dump = dump.set_linux_cpu_info(b);
    }
    if let Some(b) = &s.environ {
        dump = dump.set_linux_environ(b);
    }
    dump.finish().expect("finish")
}

/// Symbol bytes per module code_file: synthesized dumps use the M= index; sample dumps get
/// text i mod n for module i. `smut` corruption is applied to the text first.
pub fn symbol_table<T: std::ops::Deref<Target = [u8]>>(s: &Spec, dump: &minidump::Minidump<'_, T>) -> HashMap<String, Vec<u8>> {
    let mut syms = s.syms.clone();
    for &(i, o, v) in &s.smuts {
        if !syms.is_empty() {
            let k = i % syms.len();
            if !syms[k].is_empty() {
                let l = syms[k].len();
                syms[k][o % l] = v;
            }
        }
    }
    let mut out = HashMap::new();
    if syms.is_empty() {
        return out;
    }
    if s.file.is_some() {
        if let Ok(ml) = dump.get_stream::<minidump::MinidumpModuleList>() {
            for (i, m) in ml.iter().enumerate() {
                out.insert(m.code_file().into_owned(), syms[i % syms.len()].clone());
            }
        }
    } else {
        for m in &s.modules {
            if let Some(i) = m.sym {
                out.insert(m.name.clone(), syms[i % syms.len()].clone());
            }
        }
    }
    out
}

/// Like `string_symbol_supplier`, but over raw bytes (symbol files need not be UTF-8).
pub struct BytesSupplier {
    pub modules: HashMap<String, Vec<u8>>,
}

#[async_trait]
impl SymbolSupplier for BytesSupplier {
    async fn locate_symbols(&self, module: &(dyn breakpad_symbols::Module + Sync)) -> Result<LocateSymbolsResult, SymbolError> {
        if let Some(b) = self.modules.get(&*module.code_file()) {
            let file = SymbolFile::from_bytes(b)?;
            return Ok(LocateSymbolsResult { symbols: file, extra_debug_info: None });
        }
        Err(SymbolError::NotFound)
    }
    async fn locate_file(&self, _module: &(dyn breakpad_symbols::Module + Sync), _kind: FileKind) -> Result<PathBuf, FileError> {
        Err(FileError::NotFound)
    }
}

pub fn fnv(data: &[u8]) -> u64 {
    let mut h: u64 = 0xcbf29ce484222325;
    for &b in data {
        h ^= b as u64;
        h = h.wrapping_mul(0x100000001b3);
    }
    h
}
