//! Shared by the C09 and C10 harness binaries (included with #[path]).
//!
//! One case per line:   <segment>* | <schedule token>*
//!   segment  x<hex bytes>         literal bytes
//!            r<hh>*<count>        <count> copies of byte 0x<hh>
//!            t<word>              ignored (a label for the case generator)
//!   schedule <n> | <n>*<k>        the reader's successive read() calls return at most n bytes
//!                                 (k times); after the schedule is used up the reader hands out
//!                                 as much as fits (that is what `&[u8]` / from_bytes does)
//! A read() into an empty buffer or at end of input returns 0 and does not use a schedule entry.
//!
//! Answer:
//!   R=<OK|E<code>:<line>>;cb=<bytes given to the callback>,<callback calls>;nr=<read calls>;
//!   ms=<largest buffer offered to read()>;T=<files>,<inline origins>,<publics>,<url?>
//!   ;;cbok=<callback bytes are a prefix of the input>;W=<result of the whole-slice parse>;
//!   eq=<chunked table == whole table, or both errors>;X=<functions>,<cfi>,<win fd>,<win fpo>,<hash>
//!   ;D=<result of parsing the input with every line of >= 163840 content bytes removed, or ->
//!   ;deq=<that table == chunked table>
//! The part before ";;" is what the Coq model predicts; the rest is for the property oracle.
use breakpad_symbols::{SymbolError, SymbolFile};
use std::io::Read;

pub struct Case {
    pub data: Vec<u8>,
    pub sched: Vec<usize>,
}

pub fn parse_case(line: &str) -> Case {
    let mut data = Vec::new();
    let mut sched = Vec::new();
    let mut in_sched = false;
    for t in line.split_ascii_whitespace() {
        if t == "|" {
            in_sched = true;
        } else if in_sched {
            let (n, k) = match t.split_once('*') {
                Some((a, b)) => (a.parse::<usize>().expect("n"), b.parse::<usize>().expect("k")),
                None => (t.parse::<usize>().expect("n"), 1),
            };
            for _ in 0..k {
                sched.push(n);
            }
        } else if let Some(h) = t.strip_prefix('x') {
            data.extend(vharness::unhex(h));
        } else if let Some(r) = t.strip_prefix('r') {
            let (b, c) = r.split_once('*').expect("run");
            let b = u8::from_str_radix(b, 16).expect("byte");
            let c = c.parse::<usize>().expect("count");
            data.resize(data.len() + c, b);
        } else if t.starts_with('t') {
            // tag for the case generator / oracle: not part of the input
        } else {
            panic!("bad segment {}", t);
        }
    }
    Case { data, sched }
}

pub struct ChunkReader<'a> {
    data: &'a [u8],
    pos: usize,
    sched: &'a [usize],
    si: usize,
    pub nreads: u64,
    pub maxspace: usize,
}

impl<'a> Read for ChunkReader<'a> {
    fn read(&mut self, out: &mut [u8]) -> std::io::Result<usize> {
        self.nreads += 1;
        self.maxspace = self.maxspace.max(out.len());
        let remaining = self.data.len() - self.pos;
        if out.is_empty() || remaining == 0 {
            return Ok(0);
        }
        let chunk = if self.si < self.sched.len() {
            let c = self.sched[self.si];
            self.si += 1;
            c.max(1)
        } else {
            usize::MAX
        };
        let n = chunk.min(out.len()).min(remaining);
        out[..n].copy_from_slice(&self.data[self.pos..self.pos + n]);
        self.pos += n;
        Ok(n)
    }
}

fn fnv(h: &mut u64, b: &[u8]) {
    for &x in b {
        *h ^= x as u64;
        *h = h.wrapping_mul(0x100000001b3);
    }
}

pub fn class(r: &Result<SymbolFile, SymbolError>) -> String {
    match r {
        Ok(_) => "OK".to_string(),
        Err(SymbolError::ParseError(msg, line)) => {
            let code = if msg.starts_with("failed to parse file") {
                1
            } else if msg.starts_with("MODULE line found") {
                2
            } else if msg.starts_with("empty SymbolFile") {
                3
            } else if msg.starts_with("unexpected EOF") {
                4
            } else {
                9
            };
            format!("E{}:{}", code, line)
        }
        Err(e) => format!("E8:{}", e).replace(';', ","),
    }
}

/// order-independent rendering of the whole table
pub fn table_hash(s: &SymbolFile) -> (String, String) {
    let mut h: u64 = 0xcbf29ce484222325;
    fnv(&mut h, s.module_id.as_bytes());
    fnv(&mut h, b"\0");
    fnv(&mut h, s.debug_file.as_bytes());
    let mut files: Vec<_> = s.files.iter().collect();
    files.sort();
    fnv(&mut h, format!("{:?}", files).as_bytes());
    let mut origins: Vec<_> = s.inline_origins.iter().collect();
    origins.sort();
    fnv(&mut h, format!("{:?}", origins).as_bytes());
    fnv(&mut h, format!("{:?}", s.publics).as_bytes());
    let mut nf = 0;
    for (r, f) in s.functions.ranges_values() {
        nf += 1;
        fnv(&mut h, format!("{:?}{:?}", r, f).as_bytes());
    }
    let mut nc = 0;
    for (r, f) in s.cfi_stack_info.ranges_values() {
        nc += 1;
        fnv(&mut h, format!("{:?}{:?}", r, f).as_bytes());
    }
    let mut nwd = 0;
    for (r, f) in s.win_stack_framedata_info.ranges_values() {
        nwd += 1;
        fnv(&mut h, format!("{:?}{:?}", r, f).as_bytes());
    }
    let mut nwf = 0;
    for (r, f) in s.win_stack_fpo_info.ranges_values() {
        nwf += 1;
        fnv(&mut h, format!("{:?}{:?}", r, f).as_bytes());
    }
    fnv(&mut h, format!("{:?}", s.url).as_bytes());
    let t = format!(
        "{},{},{},{}",
        s.files.len(),
        s.inline_origins.len(),
        s.publics.len(),
        if s.url.is_some() { 1 } else { 0 }
    );
    (t, format!("{},{},{},{},{:016x}", nf, nc, nwd, nwf, h))
}

pub fn run(line: &str) -> String {
    let c = parse_case(line);
    let mut rd = ChunkReader { data: &c.data, pos: 0, sched: &c.sched, si: 0, nreads: 0, maxspace: 0 };
    let mut cblen: usize = 0;
    let mut cbcalls: u64 = 0;
    let mut cbok = true;
    let data = &c.data;
    let res = SymbolFile::parse(&mut rd, |b: &[u8]| {
        cbcalls += 1;
        if cblen + b.len() > data.len() || &data[cblen..cblen + b.len()] != b {
            cbok = false;
        }
        cblen += b.len();
    });
    let whole = SymbolFile::from_bytes(&c.data);
    let eq = match (&res, &whole) {
        (Ok(a), Ok(b)) => a == b,
        (Err(_), Err(_)) => true,
        _ => false,
    };
    let (t, x) = match &res {
        Ok(s) => table_hash(s),
        Err(_) => ("-".to_string(), "-".to_string()),
    };
    // the same input without its over-long lines (C09: such a line is dropped as corrupt)
    let mut stripped: Vec<u8> = Vec::new();
    let mut removed = 0usize;
    let mut first_removed = false;
    {
        let mut start = 0usize;
        let mut idx = 0usize;
        while start < c.data.len() {
            let end = match c.data[start..].iter().position(|&b| b == b'\n') {
                Some(p) => start + p + 1,
                None => c.data.len(),
            };
            let content = if c.data[end - 1] == b'\n' { end - start - 1 } else { end - start };
            if content >= 163840 {
                removed += 1;
                if idx == 0 {
                    first_removed = true;
                }
            } else {
                stripped.extend_from_slice(&c.data[start..end]);
            }
            start = end;
            idx += 1;
        }
    }
    let (d, deq) = if removed > 0 && !first_removed && !stripped.is_empty() {
        let dr = SymbolFile::from_bytes(&stripped);
        let deq = match (&res, &dr) {
            (Ok(a), Ok(b)) => a == b,
            (Err(_), Err(_)) => true,
            _ => false,
        };
        (class(&dr), if deq { "1" } else { "0" })
    } else {
        ("-".to_string(), "-")
    };
    format!(
        "R={};cb={},{};nr={};ms={};T={};;cbok={};W={};eq={};X={};D={};deq={}",
        class(&res),
        cblen,
        cbcalls,
        rd.nreads,
        rd.maxspace,
        t,
        if cbok { 1 } else { 0 },
        class(&whole),
        if eq { 1 } else { 0 },
        x,
        d,
        deq
    )
}
