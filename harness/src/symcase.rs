//! Shared by the C09 and C10 harness binaries (included with #[path]).
//!
//! One case per line:   <segment>* | <schedule token>*
//!   segment  x<hex bytes>         literal bytes
//!            r<hh>*<count>        <count> copies of byte 0x<hh>
//!            t<word>              ignored (a label for the case generator)
//!   schedule <n> | <n>*<k>        the reader's successive read() calls return at most n bytes
//!                                 (k times); after the schedule is used up the reader hands out
//!                                 as much as fits (that is what `&[u8]` / from_bytes does)
//! A read() into an empty buffer or at end of input returns 0 and does not use a schedule entry.
//!
//! Answer:
//!   R=<OK|E<code>:<line>>;cb=<bytes given to the callback>,<callback calls>;nr=<read calls>;
//!   ms=<largest buffer offered to read()>;ev=<hash of the event sequence>,<events>;
//!   T=<canonical text of the whole symbol table, see render_table>
//!   ;;cbok=<callback bytes are a prefix of the input>;W=<result of the whole-slice parse>;
//!   eq=<chunked table == whole table, or both errors>
//!   ;D=<result of parsing the input with every line of >= 163840 content bytes removed, or ->
//!   ;deq=<that table == chunked table>
//! The part before ";;" is what the Coq model predicts; the rest is for the property oracle.
//! Event sequence: every read() contributes (1, out.len(), bytes returned), every callback (2, slice length),
//! in the order in which they happen; the numbers are folded with h = (h ^ v) * 0x100000001b3 (mod 2^64)
//! starting from 0xcbf29ce484222325 (C09/Driver.v: tr_step, mix).  out.len() = capacity - end of the circular
//! buffer, so the sequence pins its capacity / position / end trajectory and the callback slices.
use breakpad_symbols::{SymbolError, SymbolFile};
use std::cell::Cell;
use std::io::Read;

pub fn mix(h: &Cell<u64>, v: u64) {
    h.set((h.get() ^ v).wrapping_mul(0x100000001b3));
}

pub struct Case {
    pub data: Vec<u8>,
    pub sched: Vec<usize>,
}

pub fn parse_case(line: &str) -> Case {
    let mut data = Vec::new();
    let mut sched = Vec::new();
    let mut in_sched = false;
    for t in line.split_ascii_whitespace() {
        if t == "|" {
            in_sched = true;
        } else if in_sched {
            let (n, k) = match t.split_once('*') {
                Some((a, b)) => (a.parse::<usize>().expect("n"), b.parse::<usize>().expect("k")),
                None => (t.parse::<usize>().expect("n"), 1),
            };
            for _ in 0..k {
                sched.push(n);
            }
        } else if let Some(h) = t.strip_prefix('x') {
            data.extend(vharness::unhex(h));
        } else if let Some(r) = t.strip_prefix('r') {
            let (b, c) = r.split_once('*').expect("run");
            let b = u8::from_str_radix(b, 16).expect("byte");
            let c = c.parse::<usize>().expect("count");
            data.resize(data.len() + c, b);
        } else if t.starts_with('t') {
            // tag for the case generator / oracle: not part of the input
        } else {
            panic!("bad segment {}", t);
        }
    }
    Case { data, sched }
}

pub struct ChunkReader<'a> {
    data: &'a [u8],
    pos: usize,
    sched: &'a [usize],
    si: usize,
    pub nreads: u64,
    pub maxspace: usize,
    pub ev: &'a Cell<u64>,
    pub nev: &'a Cell<u64>,
}

impl<'a> ChunkReader<'a> {
    fn event(&self, space: usize, n: usize) {
        mix(self.ev, 1);
        mix(self.ev, space as u64);
        mix(self.ev, n as u64);
        self.nev.set(self.nev.get() + 1);
    }
}

impl<'a> Read for ChunkReader<'a> {
    fn read(&mut self, out: &mut [u8]) -> std::io::Result<usize> {
        self.nreads += 1;
        self.maxspace = self.maxspace.max(out.len());
        let remaining = self.data.len() - self.pos;
        if out.is_empty() || remaining == 0 {
            self.event(out.len(), 0);
            return Ok(0);
        }
        let chunk = if self.si < self.sched.len() {
            let c = self.sched[self.si];
            self.si += 1;
            c.max(1)
        } else {
            usize::MAX
        };
        let n = chunk.min(out.len()).min(remaining);
        out[..n].copy_from_slice(&self.data[self.pos..self.pos + n]);
        self.pos += n;
        self.event(out.len(), n);
        Ok(n)
    }
}

fn fnv(h: &mut u64, b: &[u8]) {
    for &x in b {
        *h ^= x as u64;
        *h = h.wrapping_mul(0x100000001b3);
    }
}

pub fn class(r: &Result<SymbolFile, SymbolError>) -> String {
    match r {
        Ok(_) => "OK".to_string(),
        Err(SymbolError::ParseError(msg, line)) => {
            let code = if msg.starts_with("failed to parse file") {
                1
            } else if msg.starts_with("MODULE line found") {
                2
            } else if msg.starts_with("empty SymbolFile") {
                3
            } else if msg.starts_with("unexpected EOF") {
                4
            } else {
                9
            };
            format!("E{}:{}", code, line)
        }
        Err(e) => format!("E8:{}", e).replace(';', ","),
    }
}

/// strings: up to 40 bytes as hex, longer ones as L<length>H<FNV-1a 64>; '-' for the empty string
pub fn rs(s: &str) -> String {
    let b = s.as_bytes();
    if b.is_empty() {
        "-".to_string()
    } else if b.len() <= 40 {
        vharness::hex(b)
    } else {
        let mut h: u64 = 0xcbf29ce484222325;
        fnv(&mut h, b);
        format!("L{}H{:016x}", b.len(), h)
    }
}

/// inverse of the escaping that `{:?}` applies to a str (StackInfoWin / WinStackThing are not nameable from
/// outside the crate without its private `fuzz` feature, so the variant is read off the Debug text)
fn unescape_debug(s: &str) -> String {
    let mut out = String::new();
    let mut it = s.chars().peekable();
    while let Some(c) = it.next() {
        if c != '\\' {
            out.push(c);
            continue;
        }
        match it.next() {
            Some('n') => out.push('\n'),
            Some('r') => out.push('\r'),
            Some('t') => out.push('\t'),
            Some('0') => out.push('\0'),
            Some('u') => {
                let mut hex = String::new();
                it.next(); // {
                for h in it.by_ref() {
                    if h == '}' {
                        break;
                    }
                    hex.push(h);
                }
                out.push(char::from_u32(u32::from_str_radix(&hex, 16).expect("hex")).expect("char"));
            }
            Some(o) => out.push(o),
            None => {}
        }
    }
    out
}

fn thing_text(dbg: &str) -> String {
    if dbg.starts_with("AllocatesBasePointer(true") {
        "B1".to_string()
    } else if dbg.starts_with("AllocatesBasePointer(false") {
        "B0".to_string()
    } else {
        let inner = dbg.strip_prefix("ProgramString(\"").and_then(|x| x.strip_suffix("\")")).expect("ProgramString");
        format!("P{}", rs(&unescape_debug(inner)))
    }
}

macro_rules! render_win {
    ($m:expr) => {
        $m.ranges_values()
            .map(|(r, w)| {
                format!(
                    "{}-{}:{}:{}:{}:{}:{}:{}:{}:{}:{}",
                    r.start,
                    r.end,
                    w.address,
                    w.size,
                    w.prologue_size,
                    w.epilogue_size,
                    w.parameter_size,
                    w.saved_register_size,
                    w.local_size,
                    w.max_stack_size,
                    thing_text(&format!("{:?}", w.program_string_or_base_pointer))
                )
            })
            .collect::<Vec<_>>()
            .join(" ")
    };
}

/// canonical text of the whole symbol table (the same text is produced by ocaml/c09/main.ml from the model)
pub fn render_table(s: &SymbolFile) -> String {
    let mut files: Vec<_> = s.files.iter().collect();
    files.sort();
    let mut origins: Vec<_> = s.inline_origins.iter().collect();
    origins.sort();
    let fm = |v: &Vec<(&u32, &String)>| v.iter().map(|(k, n)| format!("{}:{}", k, rs(n))).collect::<Vec<_>>().join(",");
    let pubs: Vec<String> =
        s.publics.iter().map(|p| format!("{}:{}:{}", p.address, p.parameter_size, rs(&p.name))).collect();
    let funcs: Vec<String> = s
        .functions
        .ranges_values()
        .map(|(r, f)| {
            let lines: Vec<String> = f
                .lines
                .ranges_values()
                .map(|(r, l)| format!("{}-{}:{}:{}:{}:{}", r.start, r.end, l.address, l.size, l.file, l.line))
                .collect();
            let inls: Vec<String> = f
                .inlinees
                .iter()
                .map(|e| format!("{}/{}/{}/{}/{}/{}", e.depth, e.address, e.size, e.call_file, e.call_line, e.origin_id))
                .collect();
            format!(
                "{}-{}:{}:{}:{}:{}({})({})",
                r.start,
                r.end,
                f.address,
                f.size,
                f.parameter_size,
                rs(&f.name),
                lines.join(","),
                inls.join(",")
            )
        })
        .collect();
    let cfis: Vec<String> = s
        .cfi_stack_info
        .ranges_values()
        .map(|(r, c)| {
            let add: Vec<String> = c.add_rules.iter().map(|a| format!("{}:{}", a.address, rs(&a.rules))).collect();
            format!("{}-{}:{}:{}:{}({})", r.start, r.end, c.init.address, c.size, rs(&c.init.rules), add.join(","))
        })
        .collect();
    format!(
        "M{}|{}#F{}#O{}#P{}#N{}#C{}#WD{}#WF{}#U{}",
        rs(&s.module_id),
        rs(&s.debug_file),
        fm(&files),
        fm(&origins),
        pubs.join(","),
        funcs.join(" "),
        cfis.join(" "),
        render_win!(s.win_stack_framedata_info),
        render_win!(s.win_stack_fpo_info),
        match &s.url {
            Some(u) => format!("S{}", rs(u)),
            None => "N".to_string(),
        }
    )
}

pub fn run(line: &str) -> String {
    let c = parse_case(line);
    let (m, o) = run_parts(&c);
    format!("{};;{}", m, o)
}

/// C10: the sync run plus SymbolFile::parse_async over a response body that yields the schedule as chunks
pub fn run_with_async(line: &str) -> String {
    let c = parse_case(line);
    let (m, o) = run_parts(&c);
    let (am, ao) = run_async_parts(&c);
    format!("{};{};;{};{}", m, am, o, ao)
}

/// a response body that yields exactly the given chunks, one data frame each
struct ChunkBody {
    chunks: std::collections::VecDeque<bytes::Bytes>,
}

impl http_body::Body for ChunkBody {
    type Data = bytes::Bytes;
    type Error = std::io::Error;
    fn poll_frame(
        mut self: std::pin::Pin<&mut Self>,
        _cx: &mut std::task::Context<'_>,
    ) -> std::task::Poll<Option<Result<http_body::Frame<bytes::Bytes>, Self::Error>>> {
        std::task::Poll::Ready(self.chunks.pop_front().map(|b| Ok(http_body::Frame::data(b))))
    }
}

thread_local! {
    static RT: tokio::runtime::Runtime =
        tokio::runtime::Builder::new_current_thread().enable_all().build().expect("runtime");
}

/// chunks: the schedule's sizes (at least 1 byte, at most what is left), then the rest as one chunk
pub fn async_chunks(total: usize, sched: &[usize]) -> Vec<usize> {
    let mut out = Vec::new();
    let mut left = total;
    let mut i = 0;
    while left > 0 {
        let n = if i < sched.len() { sched[i].max(1).min(left) } else { left };
        i += 1;
        out.push(n);
        left -= n;
    }
    out
}

/// A=<result>;acb=<callback bytes>,<calls>;aev=<hash of the callback lengths>,<events>;AT=<table>
/// and for the oracle: acbok=<callback bytes are a prefix of the input>;aeq=<async table == whole-slice table or both errors>
pub fn run_async_parts(c: &Case) -> (String, String) {
    let mut chunks = std::collections::VecDeque::new();
    let mut pos = 0usize;
    for n in async_chunks(c.data.len(), &c.sched) {
        chunks.push_back(bytes::Bytes::copy_from_slice(&c.data[pos..pos + n]));
        pos += n;
    }
    let resp: reqwest::Response = http::Response::new(reqwest::Body::wrap(ChunkBody { chunks })).into();
    let ev = Cell::new(0xcbf29ce484222325u64);
    let nev = Cell::new(0u64);
    let mut cblen: usize = 0;
    let mut cbcalls: u64 = 0;
    let mut cbok = true;
    let data = &c.data;
    let res = RT.with(|rt| {
        rt.block_on(SymbolFile::parse_async(resp, |b: &[u8]| {
            cbcalls += 1;
            mix(&ev, 2);
            mix(&ev, b.len() as u64);
            nev.set(nev.get() + 1);
            if cblen + b.len() > data.len() || &data[cblen..cblen + b.len()] != b {
                cbok = false;
            }
            cblen += b.len();
        }))
    });
    let whole = SymbolFile::from_bytes(&c.data);
    let eq = match (&res, &whole) {
        (Ok(a), Ok(b)) => a == b,
        (Err(_), Err(_)) => true,
        _ => false,
    };
    let t = match &res {
        Ok(s) => render_table(s),
        Err(_) => "-".to_string(),
    };
    (
        format!("A={};acb={},{};aev={},{};AT={}", class(&res), cblen, cbcalls, ev.get(), nev.get(), t),
        format!("acbok={};aeq={}", if cbok { 1 } else { 0 }, if eq { 1 } else { 0 }),
    )
}

pub fn run_parts(c: &Case) -> (String, String) {
    let ev = Cell::new(0xcbf29ce484222325u64);
    let nev = Cell::new(0u64);
    let mut rd = ChunkReader { data: &c.data, pos: 0, sched: &c.sched, si: 0, nreads: 0, maxspace: 0, ev: &ev, nev: &nev };
    let mut cblen: usize = 0;
    let mut cbcalls: u64 = 0;
    let mut cbok = true;
    let data = &c.data;
    let res = SymbolFile::parse(&mut rd, |b: &[u8]| {
        cbcalls += 1;
        mix(&ev, 2);
        mix(&ev, b.len() as u64);
        nev.set(nev.get() + 1);
        if cblen + b.len() > data.len() || &data[cblen..cblen + b.len()] != b {
            cbok = false;
        }
        cblen += b.len();
    });
    let whole = SymbolFile::from_bytes(&c.data);
    let eq = match (&res, &whole) {
        (Ok(a), Ok(b)) => a == b,
        (Err(_), Err(_)) => true,
        _ => false,
    };
    let t = match &res {
        Ok(s) => render_table(s),
        Err(_) => "-".to_string(),
    };
    // the same input without its over-long lines (C09: such a line is dropped as corrupt)
    let mut stripped: Vec<u8> = Vec::new();
    let mut removed = 0usize;
    let mut first_removed = false;
    {
        let mut start = 0usize;
        let mut idx = 0usize;
        while start < c.data.len() {
            let end = match c.data[start..].iter().position(|&b| b == b'\n') {
                Some(p) => start + p + 1,
                None => c.data.len(),
            };
            let content = if c.data[end - 1] == b'\n' { end - start - 1 } else { end - start };
            if content >= 163840 {
                removed += 1;
                if idx == 0 {
                    first_removed = true;
                }
            } else {
                stripped.extend_from_slice(&c.data[start..end]);
            }
            start = end;
            idx += 1;
        }
    }
    let (d, deq) = if removed > 0 && !first_removed && !stripped.is_empty() {
        let dr = SymbolFile::from_bytes(&stripped);
        let deq = match (&res, &dr) {
            (Ok(a), Ok(b)) => a == b,
            (Err(_), Err(_)) => true,
            _ => false,
        };
        (class(&dr), if deq { "1" } else { "0" })
    } else {
        ("-".to_string(), "-")
    };
    (
        format!(
            "R={};cb={},{};nr={};ms={};ev={},{};T={}",
            class(&res),
            cblen,
            cbcalls,
            rd.nreads,
            rd.maxspace,
            ev.get(),
            nev.get(),
            t
        ),
        format!("cbok={};W={};eq={};D={};deq={}", if cbok { 1 } else { 0 }, class(&whole), if eq { 1 } else { 0 }, d, deq),
    )
}
