//! Shared helpers for the correspondence harness binaries (one binary per property).
use std::io::{BufRead, Write};
use std::panic::{catch_unwind, AssertUnwindSafe};

/// Run `f` for every non-comment input line; print exactly one output line per case,
/// flushed, so that a killed child leaves the culprit as the first unanswered line.
/// Seconds since the current case started (0 = idle); read by the watchdog thread.
static CASE_STARTED_MS: std::sync::atomic::AtomicU64 = std::sync::atomic::AtomicU64::new(0);

fn now_ms() -> u64 {
    std::time::SystemTime::now().duration_since(std::time::UNIX_EPOCH).map(|d| d.as_millis() as u64).unwrap_or(1)
}

/// A case that does not answer within VHARNESS_CASE_TIMEOUT seconds (default 30) ends the process with status
/// 124: the driver then reports the first unanswered case as the culprit (a hang is a violation for the
/// totality properties and a broken run for the others) instead of waiting for the whole shard's time limit.
fn start_watchdog() {
    let limit_ms: u64 = std::env::var("VHARNESS_CASE_TIMEOUT").ok().and_then(|v| v.parse::<u64>().ok()).unwrap_or(30) * 1000;
    std::thread::spawn(move || loop {
        std::thread::sleep(std::time::Duration::from_millis(200));
        let t0 = CASE_STARTED_MS.load(std::sync::atomic::Ordering::Relaxed);
        if t0 != 0 && now_ms().saturating_sub(t0) > limit_ms {
            eprintln!("watchdog: a case exceeded {} ms", limit_ms);
            std::process::exit(124);
        }
    });
}

pub fn for_each_case<F: FnMut(&str) -> String>(mut f: F) {
    std::panic::set_hook(Box::new(|_| {}));
    start_watchdog();
    let stdin = std::io::stdin();
    let stdout = std::io::stdout();
    for line in stdin.lock().lines() {
        let line = line.expect("read");
        if line.is_empty() || line.starts_with('#') {
            continue;
        }
        CASE_STARTED_MS.store(now_ms(), std::sync::atomic::Ordering::Relaxed);
        let r = catch_unwind(AssertUnwindSafe(|| f(&line)));
        CASE_STARTED_MS.store(0, std::sync::atomic::Ordering::Relaxed);
        let out = match r {
            Ok(s) => s,
            Err(e) => {
                let msg = if let Some(s) = e.downcast_ref::<&str>() {
                    s.to_string()
                } else if let Some(s) = e.downcast_ref::<String>() {
                    s.clone()
                } else {
                    "?".to_string()
                };
                format!("P;;{}", msg.replace('\n', " "))
            }
        };
        let mut o = stdout.lock();
        writeln!(o, "{}", out).unwrap();
        o.flush().unwrap();
    }
}

pub struct Toks<'a> {
    it: std::str::SplitAsciiWhitespace<'a>,
}
impl<'a> Toks<'a> {
    pub fn new(s: &'a str) -> Self {
        Toks { it: s.split_ascii_whitespace() }
    }
    pub fn str(&mut self) -> &'a str {
        self.it.next().expect("token")
    }
    pub fn u64(&mut self) -> u64 {
        self.str().parse().expect("u64")
    }
    pub fn i64(&mut self) -> i64 {
        self.str().parse().expect("i64")
    }
    pub fn usize(&mut self) -> usize {
        self.str().parse().expect("usize")
    }
    pub fn opt(&mut self) -> Option<&'a str> {
        self.it.next()
    }
}

/// hex-decode helper for case files that carry raw bytes
pub fn unhex(s: &str) -> Vec<u8> {
    if s == "-" {
        return vec![];
    }
    (0..s.len() / 2)
        .map(|i| u8::from_str_radix(&s[2 * i..2 * i + 2], 16).expect("hex"))
        .collect()
}
pub fn hex(b: &[u8]) -> String {
    if b.is_empty() {
        return "-".into();
    }
    b.iter().map(|x| format!("{:02x}", x)).collect()
}
