//! Shared helpers for the correspondence harness binaries (one binary per property).
use std::io::{BufRead, Write};
use std::panic::{catch_unwind, AssertUnwindSafe};

/// Run `f` for every non-comment input line; print exactly one output line per case,
/// flushed, so that a killed child leaves the culprit as the first unanswered line.
/// Seconds since the current case started (0 = idle); read by the watchdog thread.
static CASE_STARTED_MS: std::sync::atomic::AtomicU64 = std::sync::atomic::AtomicU64::new(0);

fn now_ms() -> u64 {
    std::time::SystemTime::now().duration_since(std::time::UNIX_EPOCH).map(|d| d.as_millis() as u64).unwrap_or(1)
}

/// CPU time (user + system, all threads) this process has consumed so far, in ms (from /proc/self/stat; 0 if unreadable).
fn cpu_ms() -> u64 {
    let s = match std::fs::read_to_string("/proc/self/stat") {
        Ok(s) => s,
        Err(_) => return 0,
    };
    // fields after the parenthesised command name: state is field 3, utime field 14, stime field 15
    let rest = match s.rfind(')') {
        Some(i) => &s[i + 1..],
        None => return 0,
    };
    let f: Vec<&str> = rest.split_ascii_whitespace().collect();
    let ticks = f.get(11).and_then(|v| v.parse::<u64>().ok()).unwrap_or(0) + f.get(12).and_then(|v| v.parse::<u64>().ok()).unwrap_or(0);
    ticks * 10 // CLK_TCK = 100 on Linux
}

/// A case that burns more than VHARNESS_CASE_TIMEOUT seconds of CPU (default 30), or does not answer within ten
/// times that in wall-clock time (a case that sleeps or deadlocks), ends the process with status 124: the driver
/// then reports the first unanswered case as the culprit (a hang is a violation for the totality properties and a
/// broken run for the others) instead of waiting for the whole shard's time limit.  The budget is CPU time so
/// that a heavily loaded machine (load average 100 was seen while many checks ran side by side) does not turn a
/// 3-second case into a reported hang.
fn start_watchdog() {
    let limit_ms: u64 = std::env::var("VHARNESS_CASE_TIMEOUT").ok().and_then(|v| v.parse::<u64>().ok()).unwrap_or(30) * 1000;
    std::thread::spawn(move || {
        let mut seen_t0 = 0u64;
        let mut cpu0 = 0u64;
        loop {
            std::thread::sleep(std::time::Duration::from_millis(200));
            let t0 = CASE_STARTED_MS.load(std::sync::atomic::Ordering::Relaxed);
            if t0 == 0 {
                seen_t0 = 0;
                continue;
            }
            if t0 != seen_t0 {
                seen_t0 = t0;
                cpu0 = cpu_ms();
                continue;
            }
            let wall = now_ms().saturating_sub(t0);
            let cpu = cpu_ms().saturating_sub(cpu0);
            if cpu > limit_ms || wall > 10 * limit_ms {
                eprintln!("watchdog: a case exceeded {} ms (cpu {} ms, wall {} ms)", limit_ms, cpu, wall);
                std::process::exit(124);
            }
        }
    });
}

pub fn for_each_case<F: FnMut(&str) -> String>(mut f: F) {
    std::panic::set_hook(Box::new(|_| {}));
    start_watchdog();
    let stdin = std::io::stdin();
    let stdout = std::io::stdout();
    for line in stdin.lock().lines() {
        let line = line.expect("read");
        if line.is_empty() || line.starts_with('#') {
            continue;
        }
        CASE_STARTED_MS.store(now_ms(), std::sync::atomic::Ordering::Relaxed);
        let r = catch_unwind(AssertUnwindSafe(|| f(&line)));
        CASE_STARTED_MS.store(0, std::sync::atomic::Ordering::Relaxed);
        let out = match r {
            Ok(s) => s,
            Err(e) => {
                let msg = if let Some(s) = e.downcast_ref::<&str>() {
                    s.to_string()
                } else if let Some(s) = e.downcast_ref::<String>() {
                    s.clone()
                } else {
                    "?".to_string()
                };
                format!("P;;{}", msg.replace('\n', " "))
            }
        };
        let mut o = stdout.lock();
        writeln!(o, "{}", out).unwrap();
        o.flush().unwrap();
    }
}

pub struct Toks<'a> {
    it: std::str::SplitAsciiWhitespace<'a>,
}
impl<'a> Toks<'a> {
    pub fn new(s: &'a str) -> Self {
        Toks { it: s.split_ascii_whitespace() }
    }
    pub fn str(&mut self) -> &'a str {
        self.it.next().expect("token")
    }
    pub fn u64(&mut self) -> u64 {
        self.str().parse().expect("u64")
    }
    pub fn i64(&mut self) -> i64 {
        self.str().parse().expect("i64")
    }
    pub fn usize(&mut self) -> usize {
        self.str().parse().expect("usize")
    }
    pub fn opt(&mut self) -> Option<&'a str> {
        self.it.next()
    }
}

/// hex-decode helper for case files that carry raw bytes
pub fn unhex(s: &str) -> Vec<u8> {
    if s == "-" {
        return vec![];
    }
    (0..s.len() / 2)
        .map(|i| u8::from_str_radix(&s[2 * i..2 * i + 2], 16).expect("hex"))
        .collect()
}
pub fn hex(b: &[u8]) -> String {
    if b.is_empty() {
        return "-".into();
    }
    b.iter().map(|x| format!("{:02x}", x)).collect()
}
